"""Abstract values of the E2 interpreter."""
from absint.lin import Lin


class V:
    __slots__ = ()

    def vars(self, acc):
        pass


class Top(V):
    __slots__ = ()

    def __repr__(self):
        return "T"

    def __eq__(self, o):
        return isinstance(o, Top)

    def __hash__(self):
        return 1


TOP = Top()


class Num(V):
    """an integer (also bool as 0/1 and char): linear expression over the symbolic variables"""
    __slots__ = ("e",)

    def __init__(self, e):
        self.e = e if isinstance(e, Lin) else Lin.const(e)

    def vars(self, acc):
        acc.update(self.e.t)

    def __repr__(self):
        return "Num(%r)" % (self.e,)

    def __eq__(self, o):
        return isinstance(o, Num) and self.e == o.e

    def __hash__(self):
        return hash(("num", self.e))


class Cond(V):
    """symbolic boolean: kind in cmp|not|and|or|const"""
    __slots__ = ("k", "a")

    def __init__(self, k, *a):
        self.k = k
        self.a = a

    def vars(self, acc):
        for x in self.a:
            if isinstance(x, Lin):
                acc.update(x.t)
            elif isinstance(x, V):
                x.vars(acc)

    def __repr__(self):
        return "Cond(%s %s)" % (self.k, ", ".join(repr(x) for x in self.a))

    def __eq__(self, o):
        return isinstance(o, Cond) and self.k == o.k and self.a == o.a

    def __hash__(self):
        return hash(("cond", self.k, self.a))


class Seq(V):
    """something with a length whose contents are not tracked: slices and str behind a fat pointer (by
    value), arrays, Vec, String, Box<[T]>, SmallVec"""
    __slots__ = ("len", "elem", "items", "view", "src")

    def __init__(self, ln, elem=None, items=None, view=None, src=None):
        self.len = ln if isinstance(ln, Lin) else Lin.const(ln)
        self.elem = elem     # optional: type index of elements (for materialising reads)
        self.items = items   # None: elements unknown; EMPTY: no element yet; else a value summarising every element
        self.view = view     # (buffer id, offset Lin): this slice is the window [offset, offset+len) of a tracked buffer
        self.src = src       # content provenance of a copy: (buffer id, offset Lin) = equals that window of the buffer's
                             # original content, or ("cat", src_a, len_a, src_b) = concatenation of two such contents

    def content(self):
        """where the bytes of this sequence come from: its view if it is a window, else its copy provenance"""
        return self.view if self.view is not None else self.src

    def vars(self, acc):
        acc.update(self.len.t)
        if isinstance(self.items, V):
            self.items.vars(acc)
        for w in (self.view, self.src):
            _src_vars(w, acc)

    def __repr__(self):
        return "Seq(%r%s%s%s)" % (self.len, "" if self.items is None else ", items=%r" % (self.items,),
                                  "" if self.view is None else ", view=%s+%r" % self.view,
                                  "" if self.src is None else ", src=%r" % (self.src,))

    def __eq__(self, o):
        return isinstance(o, Seq) and self.len == o.len and self.items == o.items and self.view == o.view and self.src == o.src

    def __hash__(self):
        return hash(("seq", self.len, self.items, self.view, self.src))


def _src_vars(w, acc):
    if w is None or w[0] in ("cellbyte", "zeros"):
        return
    if w[0] == "cat":
        _src_vars(w[1], acc)
        acc.update(w[2].t)
        _src_vars(w[3], acc)
    elif w[0] == "patch":
        _src_vars(w[1], acc)
        acc.update(w[2].t)
        acc.update(w[3].t)
        d = w[4]
        if d[0] == "be" and isinstance(d[2], Lin):
            acc.update(d[2].t)
        elif d[0] == "src":
            _src_vars(d[1], acc)
    elif w[0] == "sub":
        _src_vars(w[1], acc)
        acc.update(w[2].t)
        acc.update(w[3].t)
    else:
        acc.update(w[1].t)


def src_rename(w, f):
    if w is None or w[0] in ("cellbyte", "zeros"):
        return w
    if w[0] == "cat":
        return ("cat", src_rename(w[1], f), w[2].rename(f), src_rename(w[3], f))
    if w[0] == "patch":
        d = w[4]
        if d[0] == "be":
            d = ("be", d[1], d[2].rename(f) if isinstance(d[2], Lin) else d[2]) + tuple(d[3:])
        elif d[0] == "src":
            d = ("src", src_rename(d[1], f))
        return ("patch", src_rename(w[1], f), w[2].rename(f), w[3].rename(f), d)
    if w[0] == "sub":
        return ("sub", src_rename(w[1], f), w[2].rename(f), w[3].rename(f))
    return (w[0], w[1].rename(f))


def src_atom(w):
    """is this content description a plain window (id, offset) of an identified content"""
    return w is not None and w[0] not in ("cat", "patch", "sub", "cellbyte", "zeros")


def src_window(w, total, lo):
    """the content of the part starting at `lo` of a sequence of length `total` described by w"""
    if w is None:
        return None
    if src_atom(w):
        return (w[0], w[1] + lo)
    if w[0] == "zeros":
        return w
    if w[0] == "sub":
        return ("sub", w[1], w[2], w[3] + lo)
    return ("sub", w, total, lo)


class Empty(V):
    """summary of the elements of an empty sequence"""
    __slots__ = ()

    def __repr__(self):
        return "EMPTY"

    def __eq__(self, o):
        return isinstance(o, Empty)

    def __hash__(self):
        return 7


EMPTY = Empty()


class Ref(V):
    """pointer to path `path` inside cell `cell`; `dyn` = concrete pointee type path when the pointer was unsized
    to a trait object (used to devirtualise calls through it)"""
    __slots__ = ("cell", "path", "dyn")

    def __init__(self, cell, path=(), dyn=None):
        self.cell = cell
        self.path = tuple(path)
        self.dyn = dyn

    def __repr__(self):
        return "Ref(%s%s%s)" % (self.cell, "".join(".%s" % (p,) for p in self.path), (" dyn " + self.dyn.rsplit("::", 1)[-1]) if self.dyn else "")

    def __eq__(self, o):
        return isinstance(o, Ref) and self.cell == o.cell and self.path == o.path and self.dyn == o.dyn

    def __hash__(self):
        return hash(("ref", self.cell, self.path, self.dyn))


class RefAny(V):
    """pointer to one of several places"""
    __slots__ = ("targets",)

    def __init__(self, targets):
        ts = []
        for t in targets:
            for x in (t.targets if isinstance(t, RefAny) else (t,)):
                if x not in ts:
                    ts.append(x)
        self.targets = tuple(sorted(ts, key=repr))

    def __repr__(self):
        return "RefAny(%s)" % ", ".join(repr(t) for t in self.targets)

    def __eq__(self, o):
        return isinstance(o, RefAny) and self.targets == o.targets

    def __hash__(self):
        return hash(("refany", self.targets))


class Struct(V):
    """struct / tuple / closure environment: field index -> value"""
    __slots__ = ("f", "tag")

    def __init__(self, f=None, tag=None):
        self.f = dict(f or {})
        self.tag = tag      # closure key for closure values, else None

    def vars(self, acc):
        for v in self.f.values():
            v.vars(acc)

    def get(self, i):
        return self.f.get(i, TOP)

    def with_field(self, i, v):
        f = dict(self.f)
        f[i] = v
        return Struct(f, self.tag)

    def __repr__(self):
        return "%s{%s}" % (("closure " + self.tag.rsplit("::", 2)[-1]) if self.tag else "", ", ".join("%s: %r" % kv for kv in sorted(self.f.items(), key=lambda kv: str(kv[0]))))

    def __eq__(self, o):
        return isinstance(o, Struct) and self.f == o.f and self.tag == o.tag

    def __hash__(self):
        return hash(("struct", self.tag, tuple(sorted(self.f.items(), key=lambda kv: str(kv[0])))))


class Enum(V):
    """an enum value: possible variants (index) with payload Struct per variant"""
    __slots__ = ("adt", "v")

    def __init__(self, adt, variants):
        self.adt = adt
        self.v = dict(variants)

    def vars(self, acc):
        for s in self.v.values():
            s.vars(acc)

    def only(self, idx):
        return Enum(self.adt, {idx: self.v[idx]}) if idx in self.v else None

    def without(self, idx):
        return Enum(self.adt, {k: s for k, s in self.v.items() if k != idx})

    def __repr__(self):
        return "Enum<%s>[%s]" % (self.adt.rsplit("::", 1)[-1], ", ".join("%s%r" % (k, s) for k, s in sorted(self.v.items())))

    def __eq__(self, o):
        return isinstance(o, Enum) and self.adt == o.adt and self.v == o.v

    def __hash__(self):
        return hash(("enum", self.adt, tuple(sorted(self.v.items()))))


class DiscrOf(V):
    """the discriminant of the enum stored at (cell, path), read but not yet resolved"""
    __slots__ = ("cell", "path", "adt")

    def __init__(self, cell, path, adt):
        self.cell = cell
        self.path = tuple(path)
        self.adt = adt

    def __repr__(self):
        return "DiscrOf(%s%s)" % (self.cell, "".join(".%s" % (p,) for p in self.path))

    def __eq__(self, o):
        return isinstance(o, DiscrOf) and self.cell == o.cell and self.path == o.path

    def __hash__(self):
        return hash(("discr", self.cell, self.path))


class Iter(V):
    """a std iterator over a sequence of `len` remaining-at-most items; `enum_from` is the Lin of the next
    index when enumerated (None otherwise); `step` items per element for chunks"""
    __slots__ = ("len", "enumerated", "kind", "chunk", "items", "maps")

    def __init__(self, ln, enumerated=False, kind="iter", chunk=None, items=None, maps=()):
        self.len = ln
        self.enumerated = enumerated
        self.kind = kind
        self.chunk = chunk     # Lin: length of every item for chunks_exact
        self.items = items     # summary of the remaining items (None unknown, EMPTY none)
        self.maps = tuple(maps)   # closures applied lazily by map()

    def vars(self, acc):
        acc.update(self.len.t)
        if isinstance(self.items, V):
            self.items.vars(acc)
        for m in self.maps:
            m.vars(acc)

    def __repr__(self):
        return "Iter(%r%s%s)" % (self.len, ",enum" if self.enumerated else "", (",items=%r" % (self.items,)) if self.items is not None else "")

    def __eq__(self, o):
        return isinstance(o, Iter) and self.len == o.len and self.enumerated == o.enumerated and self.kind == o.kind and self.chunk == o.chunk \
            and self.items == o.items and self.maps == o.maps

    def __hash__(self):
        return hash(("iter", self.len, self.enumerated, self.kind, self.chunk, self.items, self.maps))


class Term(V):
    """an uninterpreted value with identity: an opaque input (`in`, name) or the result of an uninterpreted operation on
    other values (provenance of instants, durations, addresses ...)"""
    __slots__ = ("op", "a")

    def __init__(self, op, *a):
        self.op = op
        self.a = tuple(a)

    def vars(self, acc):
        for x in self.a:
            if isinstance(x, V):
                x.vars(acc)
            elif isinstance(x, Lin):
                acc.update(x.t)

    def __repr__(self):
        return "%s(%s)" % (self.op, ", ".join(repr(x) for x in self.a))

    def __eq__(self, o):
        return isinstance(o, Term) and self.op == o.op and self.a == o.a

    def __hash__(self):
        return hash(("term", self.op, self.a))


class Trace(V):
    """ordered list of abstract events observed on a path (ghost)"""
    __slots__ = ("ev",)

    def __init__(self, ev=()):
        self.ev = tuple(ev)

    def add(self, e):
        return Trace(self.ev + (e,))

    def vars(self, acc):
        for e in self.ev:
            for x in e:
                if isinstance(x, V):
                    x.vars(acc)
                elif isinstance(x, Lin):
                    acc.update(x.t)

    def __repr__(self):
        return "Trace%r" % (self.ev,)

    def __eq__(self, o):
        return isinstance(o, Trace) and self.ev == o.ev

    def __hash__(self):
        return hash(("trace", self.ev))


class FnV(V):
    """a function item value"""
    __slots__ = ("key",)

    def __init__(self, key):
        self.key = key

    def __repr__(self):
        return "Fn(%s)" % self.key

    def __eq__(self, o):
        return isinstance(o, FnV) and self.key == o.key

    def __hash__(self):
        return hash(("fn", self.key))


def value_vars(v):
    acc = set()
    v.vars(acc)
    return acc


def is_listed(x):
    """an explicit element list (as opposed to one value summarising every element)"""
    return isinstance(x, Struct) and x.tag == "elems"


def summ(x):
    """one value summarising every element, whether the elements are listed or already summarised"""
    if not is_listed(x):
        return x
    vals = [x.f[i] for i in sorted(x.f)]
    if not vals:
        return EMPTY
    acc = vals[0]
    for v in vals[1:]:
        acc = weak_join(acc, v)
        if acc is None:
            return None
    return acc


def weak_join(a, b):
    """join of two values without phi variables (used for element summaries): numbers that differ become unknown"""
    if a is None or b is None:
        return None
    if isinstance(a, Empty):
        return b
    if isinstance(b, Empty):
        return a
    if a == b:
        return a
    if isinstance(a, (Ref, RefAny)) and isinstance(b, (Ref, RefAny)):
        return RefAny([a, b])
    if is_listed(a) or is_listed(b):
        if is_listed(a) and is_listed(b) and set(a.f) == set(b.f):
            return Struct({i: weak_join(a.f[i], b.f[i]) or TOP for i in a.f}, "elems")
        return None         # lists of different shape: the elements are unknown
    if isinstance(a, Struct) and isinstance(b, Struct) and a.tag == b.tag:
        return Struct({i: weak_join(a.f[i], b.f[i]) or TOP for i in set(a.f) & set(b.f)}, a.tag)
    if isinstance(a, Enum) and isinstance(b, Enum) and a.adt == b.adt:
        vs = {}
        for i in set(a.v) | set(b.v):
            if i in a.v and i in b.v:
                vs[i] = weak_join(a.v[i], b.v[i]) or Struct()
            else:
                vs[i] = a.v.get(i) or b.v.get(i)
        return Enum(a.adt, vs)
    if isinstance(a, Seq) and isinstance(b, Seq) and a.len == b.len:
        return Seq(a.len, a.elem, weak_join(a.items, b.items))
    return TOP
