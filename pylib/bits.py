"""E2 (bits) - known-bits / bit-provenance abstract evaluation of pure integer terms.

A value is a list of bits (LSB first); each bit is 0, 1, ('v', name, j) = bit j of input `name`,
('n', name, j) = its negation, or '?' (unknown).  One-bit predicates are formulas:
True | False | ('lit', bit) | ('or', frozenset(lits)) | ('and', frozenset(lits)) | '?'.
The evaluation is a single abstract pass over the expression term extracted from MIR - every output bit's
provenance holds for all values of the inputs."""
from mir import Origin, strip, const_int

U = "?"


def const_bits(v, n):
    return [(v >> i) & 1 for i in range(n)]


def var_bits(name, n):
    return [("v", name, i) for i in range(n)]


def neg(b):
    if b in (0, 1):
        return 1 - b
    if b == U:
        return U
    if b[0] == "x":
        return ("x", b[1], 1 - b[2])
    return (("n" if b[0] == "v" else "v"),) + b[1:]


def band(a, b):
    if a == 0 or b == 0:
        return 0
    if (a not in (0, 1, U) and a[0] == "x") or (b not in (0, 1, U) and b[0] == "x"):
        return b if a == 1 else a if b == 1 else U
    if a == 1:
        return b
    if b == 1:
        return a
    if a == b:
        return a
    if a != U and b != U and a == neg(b):
        return 0
    return U


def bor(a, b):
    if a == 1 or b == 1:
        return 1
    if (a not in (0, 1, U) and a[0] == "x") or (b not in (0, 1, U) and b[0] == "x"):
        return b if a == 0 else a if b == 0 else U
    if a == 0:
        return b
    if b == 0:
        return a
    if a == b:
        return a
    if a != U and b != U and a == neg(b):
        return 1
    return U


def bxor(a, b):
    if a == 0:
        return b
    if b == 0:
        return a
    if a == 1:
        return neg(b)
    if b == 1:
        return neg(a)
    if a == U or b == U:
        return U
    if a == b:
        return 0
    if a == neg(b):
        return 1
    if a[0] in ("v", "n") and b[0] in ("v", "n"):
        # the xor of two different input bits: ('x', {the two bits}, parity)
        par = (a[0] == "n") ^ (b[0] == "n")
        return ("x", frozenset({a[1:], b[1:]}), 1 if par else 0)
    return U


def fit(bits, n):
    bits = list(bits[:n])
    return bits + [0] * (n - len(bits))


class BitEval:
    def __init__(self, leaves, callees=None):
        """leaves: function Origin -> (name, width) or None ; callees: function (name, args_bits, origin) -> bits or None"""
        self.leaves = leaves
        self.callees = callees or (lambda name, args, o: None)

    def ev(self, o, width=None):
        """-> list of bits, or None if the term is outside the domain"""
        o = strip(o)
        lf = self.leaves(o)
        if lf is not None:
            if isinstance(lf, list):
                return lf
            return var_bits(lf[0], lf[1])
        c = const_int(o)
        if c is not None and o.k == "const":
            n = width or 128
            return const_bits(c & ((1 << n) - 1), n)
        if o.k == "cast":
            inner = self.ev(o.a[1], width)
            if inner is None:
                return None
            n = o.a[2] if len(o.a) > 2 and o.a[2] else len(inner)
            return fit(inner, n)   # unsigned truncate / zero-extend
        if o.k == "field" and o.a[1] == "0" and strip(o.a[0]).k == "bin" and str(strip(o.a[0]).a[0]).endswith("WithOverflow"):
            b = strip(o.a[0])
            return self.ev(Origin("bin", b.a[0].replace("WithOverflow", ""), b.a[1], b.a[2]), width)
        if o.k == "bin":
            op = o.a[0]
            if op in ("Shl", "Shr", "ShlUnchecked", "ShrUnchecked"):
                a = self.ev(o.a[1], width)
                k = const_int(o.a[2])
                if a is None or k is None:
                    return None
                n = len(a)
                if op.startswith("Shl"):
                    return fit([0] * k + a, n)
                return fit(a[k:], n)
            a = self.ev(o.a[1], width)
            b = self.ev(o.a[2], len(a) if a is not None and strip(o.a[2]).k == "const" else width)
            if a is None and b is not None and strip(o.a[1]).k == "const":
                a = self.ev(o.a[1], len(b))
            if a is None or b is None:
                return None
            n = max(len(a), len(b)) if (strip(o.a[1]).k != "const" and strip(o.a[2]).k != "const") else (len(b) if strip(o.a[1]).k == "const" else len(a))
            a, b = fit(a, n), fit(b, n)
            if op == "BitAnd":
                return [band(x, y) for x, y in zip(a, b)]
            if op == "BitOr":
                return [bor(x, y) for x, y in zip(a, b)]
            if op == "BitXor":
                return [bxor(x, y) for x, y in zip(a, b)]
            if op in ("Add", "AddUnchecked"):
                # carry-free addition: at every position at most one operand can be non-zero
                if all(x == 0 or y == 0 for x, y in zip(a, b)):
                    return [bor(x, y) for x, y in zip(a, b)]
                return [U] * n
            return None
        if o.k == "call":
            args = [self.ev(a) for a in o.a[2]]
            return self.callees(o.a[0], args, o)
        return None

    def pred(self, o):
        """boolean formula of a comparison term"""
        o = strip(o)
        if o.k == "un" and o.a[0] == "Not":
            return fneg(self.pred(o.a[1]))
        if o.k != "bin" or o.a[0] not in ("Eq", "Ne", "Lt", "Le", "Gt", "Ge"):
            return U
        op = o.a[0]
        ca, cb = const_int(o.a[1]) if strip(o.a[1]).k == "const" else None, const_int(o.a[2]) if strip(o.a[2]).k == "const" else None
        if cb is None and ca is not None:
            flip = {"Lt": "Gt", "Gt": "Lt", "Le": "Ge", "Ge": "Le", "Eq": "Eq", "Ne": "Ne"}
            return self.pred(Origin("bin", flip[op], o.a[2], o.a[1]))
        if cb is None:
            return U
        a = self.ev(o.a[1])
        if a is None:
            return U
        n = len(a)
        if op in ("Eq", "Ne"):
            lits = []
            for i, x in enumerate(a):
                want = (cb >> i) & 1
                if x in (0, 1):
                    if x != want:
                        return False if op == "Eq" else True
                    continue
                if x == U:
                    return U
                lits.append(x if want else neg(x))
            if cb >> n:
                return False if op == "Eq" else True
            f = ("and", frozenset(lits)) if lits else True
            return f if op == "Eq" else fneg(f)
        # ordering against a power of two (or 2^k - 1): decided by the bits at or above k
        if op == "Lt":
            k = cb.bit_length() - 1
            if cb > 0 and cb == 1 << k:
                return self._all_zero(a[k:])
        if op == "Ge":
            k = cb.bit_length() - 1
            if cb > 0 and cb == 1 << k:
                return fneg(self._all_zero(a[k:]))
        if op == "Le":
            k = (cb + 1).bit_length() - 1
            if cb + 1 == 1 << k:
                return self._all_zero(a[k:])
        if op == "Gt":
            k = (cb + 1).bit_length() - 1
            if cb + 1 == 1 << k:
                return fneg(self._all_zero(a[k:]))
        return U

    def _all_zero(self, bits):
        lits = []
        for x in bits:
            if x == 1:
                return False
            if x == 0:
                continue
            if x == U:
                return U
            lits.append(neg(x))
        return ("and", frozenset(lits)) if lits else True


def fneg(f):
    if f is True:
        return False
    if f is False:
        return True
    if f == U:
        return U
    if f[0] == "lit":
        return ("lit", neg(f[1]))
    if f[0] == "and":
        return ("or", frozenset(neg(x) for x in f[1]))
    if f[0] == "or":
        return ("and", frozenset(neg(x) for x in f[1]))
    return U


def show_bits(bits):
    out = []
    for i, b in enumerate(bits):
        if b == 0:
            continue
        out.append("%d<-%s" % (i, b if b in (1, U) else ("%s%s[%d]" % ("!" if b[0] == "n" else "", b[1], b[2]))))
    return "{" + ", ".join(out) + "}"


def bit_value(b, assign):
    """concrete value of an abstract bit under an assignment {(name, j): 0/1}; None if undetermined"""
    if b in (0, 1):
        return b
    if b == U:
        return None
    v = assign.get((b[1], b[2]))
    if v is None:
        return None
    return v if b[0] == "v" else 1 - v


def formula_value(f, assign):
    if f is True:
        return 1
    if f is False:
        return 0
    if f == U:
        return None
    if f[0] == "lit":
        return bit_value(f[1], assign)
    vals = [bit_value(x, assign) for x in f[1]]
    if f[0] == "and":
        if 0 in vals:
            return 0
        return None if None in vals else 1
    if f[0] == "or":
        if 1 in vals:
            return 1
        return None if None in vals else 0
    return None


def formula_vars(f):
    if f in (True, False, U):
        return set()
    if f[0] == "lit":
        return {(f[1][1], f[1][2])}
    return {(x[1], x[2]) for x in f[1]}
