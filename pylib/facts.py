"""Run the stunlint driver over /repo's current working tree and load the fact files.

The driver is injected with RUSTC_WORKSPACE_WRAPPER under `cargo +nightly check --offline`, always in a
fresh CARGO_TARGET_DIR (cargo's freshness cache would otherwise skip the wrapper).  Fact files carry a
per-run nonce which is asserted.  Results are cached under /verif/.cache keyed by a content hash of the
complete source tree (every file outside target/ and .git/) + driver binary + configuration, so a
changed working tree is always re-analysed.
"""
import hashlib, json, os, shutil, subprocess, sys, tempfile, time, uuid

VERIF = os.path.dirname(os.path.dirname(os.path.abspath(__file__)))
DRIVER = os.path.join(VERIF, "stunlint", "target", "debug", "stunlint")
CACHE = os.path.join(VERIF, ".cache", "facts")
REPO = os.environ.get("STUNLINT_REPO", "/repo")


def tree_hash(repo):
    h = hashlib.sha256()
    for root, dirs, files in os.walk(repo):
        dirs[:] = sorted(d for d in dirs if d not in ("target", ".git"))
        for f in sorted(files):
            p = os.path.join(root, f)
            if os.path.islink(p) or not os.path.isfile(p):
                continue
            h.update(os.path.relpath(p, repo).encode() + b"\0")
            with open(p, "rb") as fh:
                h.update(hashlib.sha256(fh.read()).digest())
    return h.hexdigest()


def _sysroot():
    return subprocess.check_output(["rustc", "+nightly", "--print", "sysroot"], text=True).strip()


def ensure_driver():
    if not os.path.exists(DRIVER):
        subprocess.check_call(["cargo", "build", "--offline"], cwd=os.path.join(VERIF, "stunlint"),
                              stdout=subprocess.DEVNULL, stderr=subprocess.DEVNULL)
    return DRIVER


CONFIGS = {
    # name: (extra cargo args, extra rustflags)
    "dev": ([], ""),
    "release": (["--release"], ""),
    "arbitrary": (["--features", "stun-types/arbitrary"], ""),
}


def extract(repo=None, config="dev", crates=("stun_types", "stun_proto"), packages=("stun-types", "stun-proto"),
            use_cache=True):
    """Returns (facts: {crate: json}, meta)."""
    repo = repo or REPO
    ensure_driver()
    t0 = time.time()
    with open(DRIVER, "rb") as fh:
        dh = hashlib.sha256(fh.read()).hexdigest()
    key = hashlib.sha256((tree_hash(repo) + dh + config + ",".join(crates)).encode()).hexdigest()[:32]
    cdir = os.path.join(CACHE, key)
    use_cache = use_cache and os.environ.get("STUNLINT_NO_CACHE") != "1"
    if use_cache and all(os.path.exists(os.path.join(cdir, c + ".json")) for c in crates):
        try:
            facts = {c: json.load(open(os.path.join(cdir, c + ".json"))) for c in crates}
            os.utime(cdir, None)
            return facts, {"cached": True, "wall_s": time.time() - t0, "tree_key": key, "config": config}
        except (OSError, ValueError):
            pass      # entry pruned or half-written by a concurrent run: extract again
    extra_args, extra_flags = CONFIGS[config]
    tdir = tempfile.mkdtemp(prefix="stunlint-target-")
    odir = tempfile.mkdtemp(prefix="stunlint-facts-")
    nonce = uuid.uuid4().hex
    env = dict(os.environ)
    env.update({
        "LD_LIBRARY_PATH": _sysroot() + "/lib",
        "RUSTFLAGS": ("-Zmir-opt-level=0 -Zalways-encode-mir -Awarnings " + extra_flags).strip(),
        "RUSTC_WORKSPACE_WRAPPER": DRIVER,
        "STUNLINT_OUT": odir,
        "STUNLINT_NONCE": nonce,
        "STUNLINT_CRATES": ",".join(crates),
        "CARGO_TARGET_DIR": tdir,
        "CARGO_NET_OFFLINE": "true",
    })
    cmd = ["cargo", "+nightly", "check", "--offline"] + sum((["-p", p] for p in packages), []) + extra_args
    try:
        r = subprocess.run(cmd, cwd=repo, env=env, stdout=subprocess.PIPE, stderr=subprocess.STDOUT, text=True)
        if r.returncode != 0:
            raise RuntimeError("stunlint: cargo check failed (the tree does not compile?)\n" + r.stdout[-4000:])
        facts = {}
        for c in crates:
            p = os.path.join(odir, c + ".json")
            if not os.path.exists(p):
                raise RuntimeError("stunlint: no fact file for crate %s (driver not run?)\n%s" % (c, r.stdout[-2000:]))
            facts[c] = json.load(open(p))
            if facts[c].get("nonce") != nonce:
                raise RuntimeError("stunlint: stale fact file for crate %s" % c)
        if use_cache:
            os.makedirs(CACHE, exist_ok=True)
            tmpc = cdir + ".tmp" + nonce
            shutil.copytree(odir, tmpc)
            try:
                os.rename(tmpc, cdir)
            except OSError:
                shutil.rmtree(tmpc, ignore_errors=True)
            # keep the cache small
            ents = sorted((os.path.getmtime(os.path.join(CACHE, e)), e) for e in os.listdir(CACHE))
            for _, e in ents[:-150]:
                shutil.rmtree(os.path.join(CACHE, e), ignore_errors=True)
    finally:
        shutil.rmtree(tdir, ignore_errors=True)
        shutil.rmtree(odir, ignore_errors=True)
    return facts, {"cached": False, "wall_s": time.time() - t0, "tree_key": key, "config": config,
                   "cmd": " ".join(cmd)}


if __name__ == "__main__":
    f, m = extract(config=sys.argv[1] if len(sys.argv) > 1 else "dev")
    print(m, {c: len(v["bodies"]) for c, v in f.items()})
