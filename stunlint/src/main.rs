//! stunlint — fact extractor for the stun-proto static checks.
//!
//! A `rustc_private` driver used as `RUSTC_WORKSPACE_WRAPPER`.  For every workspace crate named in
//! `STUNLINT_CRATES` it serialises the type-checked program (MIR of every local body, monomorphic
//! instances of local generic functions reachable from them, resolved callees, evaluated constants,
//! ADT layouts, impl tables, visibility) to `$STUNLINT_OUT/<crate>.json`.  All rules live in
//! `/verif/pylib`; this binary only reports what rustc knows.
#![feature(rustc_private)]
#![allow(unused_imports, dead_code, clippy::all)]

extern crate rustc_abi;
extern crate rustc_data_structures;
extern crate rustc_driver;
extern crate rustc_hir;
extern crate rustc_interface;
extern crate rustc_middle;
extern crate rustc_session;
extern crate rustc_span;

mod json;
use json::J;

use std::collections::{BTreeMap, HashMap, HashSet, VecDeque};

use rustc_abi::{FieldIdx, VariantIdx, FIRST_VARIANT};
use rustc_driver::Compilation;
use rustc_hir::def::DefKind;
use rustc_hir::def_id::{DefId, LocalDefId, LOCAL_CRATE};
use rustc_middle::mir::interpret::{GlobalAlloc, Scalar};
use rustc_middle::mir::{
    self, AggregateKind, AssertKind, BasicBlock, BinOp, Body, BorrowKind, CastKind, ConstOperand,
    ConstValue, Operand, Place, ProjectionElem, Rvalue, StatementKind, TerminatorKind, UnOp,
};
use rustc_middle::ty::print::{with_no_trimmed_paths, with_resolve_crate_name, PrintTraitRefExt};
use rustc_middle::ty::{
    self, EarlyBinder, GenericArgKind, GenericArgsRef, Instance, InstanceKind, Ty, TyCtxt,
    TypeVisitableExt, TypingEnv,
};
use rustc_span::Span;

struct Cb;

impl rustc_driver::Callbacks for Cb {
    fn after_analysis<'tcx>(
        &mut self,
        _compiler: &rustc_interface::interface::Compiler,
        tcx: TyCtxt<'tcx>,
    ) -> Compilation {
        let name = tcx.crate_name(LOCAL_CRATE).to_string();
        let wanted = std::env::var("STUNLINT_CRATES").unwrap_or_else(|_| "stun_types,stun_proto".into());
        let wanted: Vec<String> = wanted.split(',').map(|s| s.trim().to_string()).collect();
        if !wanted.contains(&name) {
            return Compilation::Continue;
        }
        // skip test/bench/bin targets of the same name: only the lib target is analysed
        let out_dir = match std::env::var("STUNLINT_OUT") {
            Ok(d) => d,
            Err(_) => return Compilation::Continue,
        };
        if tcx.sess.opts.test {
            return Compilation::Continue;
        }
        let mut ex = Ex::new(tcx, name.clone(), wanted);
        let doc = ex.run();
        let mut s = String::with_capacity(1 << 22);
        doc.write(&mut s);
        let path = format!("{}/{}.json", out_dir, name);
        let tmp = format!("{}.tmp{}", path, std::process::id());
        std::fs::write(&tmp, s).expect("stunlint: cannot write fact file");
        std::fs::rename(&tmp, &path).expect("stunlint: cannot rename fact file");
        Compilation::Continue
    }
}

fn main() {
    let argv: Vec<String> = std::env::args().collect();
    // RUSTC_WORKSPACE_WRAPPER: argv[1] is the real rustc path
    let mut args = vec!["rustc".to_string()];
    args.extend(argv.into_iter().skip(2));
    rustc_driver::run_compiler(&args, &mut Cb);
}

struct Ex<'tcx> {
    tcx: TyCtxt<'tcx>,
    krate: String,
    mono_crates: Vec<String>,
    types: Vec<J>,
    type_ix: HashMap<Ty<'tcx>, usize>,
    adt_seen: HashSet<DefId>,
    adts: Vec<(String, J)>,
    bodies: Vec<(String, J)>,
    emitted: HashSet<String>,
    queue: VecDeque<(String, Instance<'tcx>)>,
}

fn hex(b: &[u8]) -> String {
    let mut s = String::with_capacity(b.len() * 2);
    for x in b {
        s.push_str(&format!("{:02x}", x));
    }
    s
}

impl<'tcx> Ex<'tcx> {
    fn new(tcx: TyCtxt<'tcx>, krate: String, mono_crates: Vec<String>) -> Self {
        Ex {
            tcx,
            krate,
            mono_crates,
            types: vec![],
            type_ix: HashMap::new(),
            adt_seen: HashSet::new(),
            adts: vec![],
            bodies: vec![],
            emitted: HashSet::new(),
            queue: VecDeque::new(),
        }
    }

    fn path(&self, d: DefId) -> String {
        with_no_trimmed_paths!(with_resolve_crate_name!(self.tcx.def_path_str(d)))
    }

    fn path_args(&self, d: DefId, args: GenericArgsRef<'tcx>) -> String {
        with_no_trimmed_paths!(with_resolve_crate_name!(self.tcx.def_path_str_with_args(d, args)))
    }

    fn ty_str(&self, t: Ty<'tcx>) -> String {
        with_no_trimmed_paths!(with_resolve_crate_name!(format!("{}", t)))
    }

    fn span(&self, sp: Span) -> J {
        J::s(format!("{:?}", sp))
    }

    fn crate_of(&self, d: DefId) -> String {
        self.tcx.crate_name(d.krate).to_string()
    }

    fn ty(&mut self, t: Ty<'tcx>) -> J {
        J::Int(self.ty_ix(t) as i128)
    }

    fn ty_ix(&mut self, t: Ty<'tcx>) -> usize {
        if let Some(i) = self.type_ix.get(&t) {
            return *i;
        }
        let idx = self.types.len();
        self.types.push(J::Null);
        self.type_ix.insert(t, idx);
        let mut o: Vec<(&str, J)> = vec![("s", J::s(self.ty_str(t)))];
        match t.kind() {
            ty::Bool => o.push(("k", J::s("bool"))),
            ty::Char => o.push(("k", J::s("char"))),
            ty::Int(it) => {
                o.push(("k", J::s("int")));
                o.push(("bits", J::Int(it.bit_width().unwrap_or(64) as i128)));
                o.push(("signed", J::Bool(true)));
                o.push(("ptr", J::Bool(it.bit_width().is_none())));
            }
            ty::Uint(ut) => {
                o.push(("k", J::s("int")));
                o.push(("bits", J::Int(ut.bit_width().unwrap_or(64) as i128)));
                o.push(("signed", J::Bool(false)));
                o.push(("ptr", J::Bool(ut.bit_width().is_none())));
            }
            ty::Float(_) => o.push(("k", J::s("float"))),
            ty::Adt(def, args) => {
                o.push(("k", J::s("adt")));
                o.push(("path", J::s(self.path(def.did()))));
                let mut targs = vec![];
                for a in args.iter() {
                    if let GenericArgKind::Type(at) = a.kind() {
                        targs.push(self.ty(at));
                    }
                }
                o.push(("args", J::Arr(targs)));
                self.note_adt(*def);
            }
            ty::Str => o.push(("k", J::s("str"))),
            ty::Array(e, len) => {
                o.push(("k", J::s("array")));
                o.push(("of", self.ty(*e)));
                o.push((
                    "len",
                    J::opt(len.try_to_target_usize(self.tcx), |n| J::Int(n as i128)),
                ));
            }
            ty::Slice(e) => {
                o.push(("k", J::s("slice")));
                o.push(("of", self.ty(*e)));
            }
            ty::RawPtr(e, m) => {
                o.push(("k", J::s("ptr")));
                o.push(("to", self.ty(*e)));
                o.push(("mut", J::Bool(m.is_mut())));
            }
            ty::Ref(_, e, m) => {
                o.push(("k", J::s("ref")));
                o.push(("to", self.ty(*e)));
                o.push(("mut", J::Bool(m.is_mut())));
            }
            ty::FnDef(d, args) => {
                o.push(("k", J::s("fndef")));
                o.push(("path", J::s(self.path(*d))));
                o.push(("full", J::s(self.path_args(*d, args))));
                if !args.has_non_region_param() {
                    o.push(("key", J::s(self.inst_key(*d, args))));
                }
            }
            ty::FnPtr(..) => o.push(("k", J::s("fnptr"))),
            ty::Dynamic(preds, ..) => {
                o.push(("k", J::s("dyn")));
                o.push((
                    "principal",
                    J::opt(preds.principal_def_id(), |d| J::s(self.path(d))),
                ));
            }
            ty::Closure(d, cargs) => {
                o.push(("k", J::s("closure")));
                o.push(("path", J::s(self.path(*d))));
                if !cargs.has_non_region_param() {
                    o.push(("key", J::s(self.inst_key(*d, cargs))));
                }
            }
            ty::Never => o.push(("k", J::s("never"))),
            ty::Tuple(l) => {
                o.push(("k", J::s("tuple")));
                let mut es = vec![];
                for e in l.iter() {
                    es.push(self.ty(e));
                }
                o.push(("elems", J::Arr(es)));
            }
            ty::Param(p) => {
                o.push(("k", J::s("param")));
                o.push(("name", J::s(p.name.to_string())));
            }
            ty::Alias(..) => o.push(("k", J::s("alias"))),
            _ => o.push(("k", J::s("other"))),
        }
        self.types[idx] = J::obj(o);
        idx
    }

    fn note_adt(&mut self, def: ty::AdtDef<'tcx>) {
        let did = def.did();
        if !self.adt_seen.insert(did) {
            return;
        }
        let path = self.path(did);
        let krate = self.crate_of(did);
        let detailed = self.mono_crates.contains(&krate);
        let kind = if def.is_enum() {
            "enum"
        } else if def.is_union() {
            "union"
        } else {
            "struct"
        };
        let mut variants = vec![];
        for (vi, v) in def.variants().iter_enumerated() {
            let discr = if def.is_enum() {
                J::Raw(format!("{}", def.discriminant_for_variant(self.tcx, vi).val))
            } else {
                J::Null
            };
            let mut fields = vec![];
            for f in v.fields.iter() {
                let mut fo = vec![("name", J::s(f.name.to_string()))];
                if detailed {
                    let fty = self.tcx.type_of(f.did).instantiate_identity().skip_normalization();
                    fo.push(("ty", self.ty(fty)));
                    fo.push(("pub", J::Bool(f.vis.is_public())));
                }
                fields.push(J::obj(fo));
            }
            variants.push(J::obj(vec![
                ("name", J::s(v.name.to_string())),
                ("discr", discr),
                ("fields", J::Arr(fields)),
            ]));
        }
        let j = J::obj(vec![
            ("kind", J::s(kind)),
            ("crate", J::s(krate)),
            ("local", J::Bool(did.is_local())),
            ("variants", J::Arr(variants)),
        ]);
        self.adts.push((path, j));
    }

    // ---------------------------------------------------------------- keys / instances

    fn type_args_of(&self, args: &[ty::GenericArg<'tcx>]) -> Vec<String> {
        let mut v = vec![];
        for a in args {
            match a.kind() {
                GenericArgKind::Type(t) => v.push(self.ty_str(t)),
                GenericArgKind::Const(c) => v.push(format!("{:?}", c)),
                _ => {}
            }
        }
        v
    }

    /// Body key of an instance: def path, plus the non-lifetime generic arguments of the
    /// enclosing item when there are any.
    fn inst_key(&self, def: DefId, args: GenericArgsRef<'tcx>) -> String {
        let root = self.tcx.typeck_root_def_id(def);
        let n = self.tcx.generics_of(root).count().min(args.len());
        let targs = self.type_args_of(&args[..n]);
        if targs.is_empty() {
            self.path(def)
        } else {
            format!("{}[{}]", self.path(def), targs.join(", "))
        }
    }

    fn needs_mono(&self, def: DefId) -> bool {
        let root = self.tcx.typeck_root_def_id(def);
        self.tcx.generics_of(root).requires_monomorphization(self.tcx)
    }

    fn maybe_enqueue(&mut self, inst: Instance<'tcx>) -> Option<String> {
        let def = match inst.def {
            InstanceKind::Item(d) => d,
            _ => return None,
        };
        if inst.args.has_non_region_param() {
            return None;
        }
        if !matches!(self.tcx.def_kind(def), DefKind::Fn | DefKind::AssocFn | DefKind::Closure) {
            return None;
        }
        let krate = self.crate_of(def);
        if !self.mono_crates.contains(&krate) {
            return None;
        }
        let key = self.inst_key(def, inst.args);
        if !self.needs_mono(def) {
            // identity body: emitted by the session in which it is local
            return Some(key);
        }
        if !self.tcx.is_mir_available(def) {
            return None;
        }
        if !self.emitted.contains(&key) {
            self.emitted.insert(key.clone());
            self.queue.push_back((key.clone(), inst));
        }
        Some(key)
    }

    fn instance_json(&mut self, inst: Instance<'tcx>) -> J {
        let def = inst.def_id();
        let mut o = vec![
            ("def", J::s(self.path(def))),
            ("crate", J::s(self.crate_of(def))),
            ("full", J::s(self.path_args(def, inst.args))),
        ];
        let kind = match inst.def {
            InstanceKind::Item(_) => "item",
            InstanceKind::Intrinsic(_) => "intrinsic",
            InstanceKind::VTableShim(_) => "vtable_shim",
            InstanceKind::ReifyShim(..) => "reify_shim",
            InstanceKind::FnPtrShim(..) => "fnptr_shim",
            InstanceKind::Virtual(..) => "virtual",
            InstanceKind::ClosureOnceShim { .. } => "closure_once_shim",
            InstanceKind::DropGlue(..) => "drop_glue",
            InstanceKind::CloneShim(..) => "clone_shim",
            _ => "other",
        };
        o.push(("kind", J::s(kind)));
        match inst.def {
            InstanceKind::Item(_) => {
                let key = self.maybe_enqueue(inst);
                o.push(("key", J::opt(key, J::s)));
            }
            InstanceKind::ClosureOnceShim { .. } => {
                // <closure as FnOnce>::call_once for an Fn/FnMut closure: forwards to the closure body
                if let Some(t) = inst.args.types().next() {
                    if let ty::Closure(cdef, cargs) = t.kind() {
                        let ci = Instance::new_raw(*cdef, cargs);
                        let key = self.maybe_enqueue(ci);
                        o.push(("key", J::opt(key, J::s)));
                        o.push(("closure", J::s(self.path(*cdef))));
                    }
                }
            }
            InstanceKind::FnPtrShim(_, t) => {
                if let ty::FnDef(fd, fargs) = t.kind() {
                    if let Ok(Some(fi)) = Instance::try_resolve(
                        self.tcx,
                        TypingEnv::fully_monomorphized(),
                        *fd,
                        fargs,
                    ) {
                        if !fargs.has_non_region_param() {
                            let key = self.maybe_enqueue(fi);
                            o.push(("key", J::opt(key, J::s)));
                        }
                    }
                    o.push(("shim_target", J::s(self.path(*fd))));
                }
            }
            InstanceKind::DropGlue(_, t) => {
                o.push(("of", J::opt(t, |t| self.ty(t))));
            }
            InstanceKind::CloneShim(_, t) => {
                o.push(("of", self.ty(t)));
            }
            _ => {}
        }
        J::obj(o)
    }

    // ---------------------------------------------------------------- constants

    fn alloc_bytes(&self, alloc_id: mir::interpret::AllocId, off: usize, len: usize) -> Option<Vec<u8>> {
        match self.tcx.try_get_global_alloc(alloc_id)? {
            GlobalAlloc::Memory(a) => {
                let a = a.inner();
                if off + len > a.len() {
                    return None;
                }
                Some(a.inspect_with_uninit_and_ptr_outside_interpreter(off..off + len).to_vec())
            }
            _ => None,
        }
    }

    fn scalar_int_json(&mut self, i: ty::ScalarInt, ty: Ty<'tcx>) -> J {
        let size = i.size();
        let bits: u128 = i.to_bits(size);
        if ty.is_bool() {
            return J::obj(vec![("bool", J::Bool(bits != 0))]);
        }
        if ty.is_signed() {
            let v = size.sign_extend(bits) as i128;
            return J::obj(vec![("int", J::Int(v))]);
        }
        J::obj(vec![("int", J::Raw(format!("{}", bits)))])
    }

    fn const_val(&mut self, v: ConstValue, ty: Ty<'tcx>, env: TypingEnv<'tcx>) -> J {
        match v {
            ConstValue::Scalar(Scalar::Int(i)) => self.scalar_int_json(i, ty),
            ConstValue::Scalar(Scalar::Ptr(ptr, _)) => {
                let (prov, off) = ptr.prov_and_relative_offset();
                let alloc_id = prov.alloc_id();
                match self.tcx.try_get_global_alloc(alloc_id) {
                    Some(GlobalAlloc::Static(d)) => J::obj(vec![("static", J::s(self.path(d)))]),
                    Some(GlobalAlloc::Memory(a)) => {
                        let a = a.inner();
                        let n = a.len();
                        let offb = off.bytes() as usize;
                        let bytes = if n <= 4096 && a.provenance().ptrs().is_empty() && offb <= n {
                            J::s(hex(a.inspect_with_uninit_and_ptr_outside_interpreter(offb..n)))
                        } else {
                            J::Null
                        };
                        J::obj(vec![("mem", bytes), ("len", J::Int((n - offb.min(n)) as i128))])
                    }
                    Some(GlobalAlloc::Function { instance }) => {
                        J::obj(vec![("fnptr", self.instance_json(instance))])
                    }
                    _ => J::obj(vec![("other", J::s("ptr"))]),
                }
            }
            ConstValue::ZeroSized => J::obj(vec![("zst", J::Bool(true))]),
            ConstValue::Slice { alloc_id, meta } => {
                let bytes = self.alloc_bytes(alloc_id, 0, meta as usize);
                let is_str = matches!(ty.kind(), ty::Ref(_, t, _) if t.is_str());
                match bytes {
                    Some(b) if is_str => J::obj(vec![
                        ("str", J::s(String::from_utf8_lossy(&b).to_string())),
                        ("len", J::Int(meta as i128)),
                    ]),
                    Some(b) => J::obj(vec![("bytes", J::s(hex(&b))), ("len", J::Int(meta as i128))]),
                    None => J::obj(vec![("len", J::Int(meta as i128))]),
                }
            }
            ConstValue::Indirect { alloc_id, offset } => {
                let size = self
                    .tcx
                    .layout_of(env.as_query_input(ty))
                    .ok()
                    .map(|l| l.size.bytes() as usize);
                match size.and_then(|s| self.alloc_bytes(alloc_id, offset.bytes() as usize, s)) {
                    Some(b) if b.len() <= 4096 => {
                        let mut o = vec![("bytes", J::s(hex(&b))), ("len", J::Int(b.len() as i128))];
                        // pointers stored inside the constant: what they point to (a static, or the bytes of a promoted value)
                        let mut relocs = Vec::new();
                        if let Some(GlobalAlloc::Memory(a)) = self.tcx.try_get_global_alloc(alloc_id) {
                            for (off, prov) in a.inner().provenance().ptrs().iter() {
                                let target = match self.tcx.try_get_global_alloc(prov.alloc_id()) {
                                    Some(GlobalAlloc::Static(def)) => J::obj(vec![("static", J::s(self.tcx.def_path_str(def)))]),
                                    Some(GlobalAlloc::Memory(m)) => {
                                        let m = m.inner();
                                        let n = m.len().min(256);
                                        J::obj(vec![("mem", J::s(hex(m.inspect_with_uninit_and_ptr_outside_interpreter(0..n)))), ("len", J::Int(m.len() as i128))])
                                    }
                                    Some(GlobalAlloc::Function { instance }) => J::obj(vec![("fn", J::s(self.tcx.def_path_str(instance.def_id())))]),
                                    _ => J::obj(vec![("other", J::s("?"))]),
                                };
                                relocs.push(J::obj(vec![("off", J::Int(off.bytes() as i128)), ("to", target)]));
                            }
                        }
                        if !relocs.is_empty() {
                            o.push(("relocs", J::Arr(relocs)));
                        }
                        J::obj(o)
                    }
                    _ => J::obj(vec![("other", J::s("indirect"))]),
                }
            }
        }
    }

    fn constant(&mut self, c: &ConstOperand<'tcx>, env: TypingEnv<'tcx>) -> J {
        let ty = c.const_.ty();
        let mut o = vec![("k", J::s("const")), ("ty", self.ty(ty))];
        if let ty::FnDef(def, args) = ty.kind() {
            o.push(("fn", J::s(self.path_args(*def, args))));
            o.push(("fn_def", J::s(self.path(*def))));
            return J::obj(o);
        }
        if let mir::Const::Unevaluated(uv, _) = c.const_ {
            o.push(("item", J::s(self.path_args(uv.def, uv.args))));
        }
        match c.const_.eval(self.tcx, env, c.span) {
            Ok(v) => {
                let j = self.const_val(v, ty, env);
                o.push(("v", j));
            }
            Err(_) => {
                o.push(("v", J::obj(vec![("unevaluated", J::s(format!("{:?}", c.const_)))])));
            }
        }
        J::obj(o)
    }

    // ---------------------------------------------------------------- places / operands

    fn place(&mut self, body: &Body<'tcx>, p: &Place<'tcx>) -> J {
        let mut projs = vec![];
        for (base, elem) in p.iter_projections() {
            let j = match elem {
                ProjectionElem::Deref => J::obj(vec![("k", J::s("deref"))]),
                ProjectionElem::Field(f, fty) => {
                    let bt = base.ty(&body.local_decls, self.tcx);
                    let (name, of) = match bt.ty.kind() {
                        ty::Adt(def, _) => {
                            let v = bt.variant_index.unwrap_or(FIRST_VARIANT);
                            (
                                def.variant(v).fields[f].name.to_string(),
                                format!("{}::{}", self.path(def.did()), def.variant(v).name),
                            )
                        }
                        ty::Closure(d, _) => (format!("upvar{}", f.index()), self.path(*d)),
                        ty::Tuple(_) => (format!("{}", f.index()), "tuple".to_string()),
                        _ => (format!("{}", f.index()), "?".to_string()),
                    };
                    J::obj(vec![
                        ("k", J::s("field")),
                        ("i", J::Int(f.index() as i128)),
                        ("name", J::s(name)),
                        ("of", J::s(of)),
                        ("ty", self.ty(fty)),
                    ])
                }
                ProjectionElem::Index(l) => {
                    J::obj(vec![("k", J::s("index")), ("l", J::Int(l.index() as i128))])
                }
                ProjectionElem::ConstantIndex { offset, min_length, from_end } => J::obj(vec![
                    ("k", J::s("cidx")),
                    ("off", J::Int(offset as i128)),
                    ("min", J::Int(min_length as i128)),
                    ("from_end", J::Bool(from_end)),
                ]),
                ProjectionElem::Subslice { from, to, from_end } => J::obj(vec![
                    ("k", J::s("subslice")),
                    ("from", J::Int(from as i128)),
                    ("to", J::Int(to as i128)),
                    ("from_end", J::Bool(from_end)),
                ]),
                ProjectionElem::Downcast(sym, v) => J::obj(vec![
                    ("k", J::s("downcast")),
                    ("v", J::Int(v.index() as i128)),
                    ("name", J::opt(sym, |s| J::s(s.to_string()))),
                ]),
                _ => J::obj(vec![("k", J::s("other"))]),
            };
            projs.push(j);
        }
        let pty = p.ty(&body.local_decls, self.tcx).ty;
        J::obj(vec![
            ("l", J::Int(p.local.index() as i128)),
            ("p", J::Arr(projs)),
            ("ty", self.ty(pty)),
        ])
    }

    fn operand(&mut self, body: &Body<'tcx>, op: &Operand<'tcx>, env: TypingEnv<'tcx>) -> J {
        match op {
            Operand::Copy(p) => J::obj(vec![("k", J::s("copy")), ("pl", self.place(body, p))]),
            Operand::Move(p) => J::obj(vec![("k", J::s("move")), ("pl", self.place(body, p))]),
            Operand::Constant(c) => self.constant(c, env),
            #[allow(unreachable_patterns)]
            _ => J::obj(vec![("k", J::s("other")), ("dbg", J::s(format!("{:?}", op)))]),
        }
    }

    fn rvalue(&mut self, body: &Body<'tcx>, rv: &Rvalue<'tcx>, env: TypingEnv<'tcx>) -> J {
        match rv {
            Rvalue::Use(op, _) => J::obj(vec![("k", J::s("use")), ("op", self.operand(body, op, env))]),
            Rvalue::Repeat(op, n) => J::obj(vec![
                ("k", J::s("repeat")),
                ("op", self.operand(body, op, env)),
                ("n", J::opt(n.try_to_target_usize(self.tcx), |n| J::Int(n as i128))),
            ]),
            Rvalue::Ref(_, bk, p) => J::obj(vec![
                ("k", J::s("ref")),
                ("mut", J::Bool(matches!(bk, BorrowKind::Mut { .. }))),
                ("fake", J::Bool(matches!(bk, BorrowKind::Fake(_)))),
                ("pl", self.place(body, p)),
            ]),
            Rvalue::RawPtr(kind, p) => J::obj(vec![
                ("k", J::s("rawptr")),
                ("kind", J::s(format!("{:?}", kind))),
                ("pl", self.place(body, p)),
            ]),
            Rvalue::Cast(kind, op, ty) => {
                let ks = match kind {
                    CastKind::IntToInt => "IntToInt".to_string(),
                    CastKind::PointerCoercion(pc, _) => format!("PointerCoercion({:?})", pc),
                    other => format!("{:?}", other),
                };
                J::obj(vec![
                    ("k", J::s("cast")),
                    ("kind", J::s(ks)),
                    ("op", self.operand(body, op, env)),
                    ("from", {
                        let t = op.ty(&body.local_decls, self.tcx);
                        self.ty(t)
                    }),
                    ("ty", self.ty(*ty)),
                ])
            }
            Rvalue::BinaryOp(op, ab) => J::obj(vec![
                ("k", J::s("binop")),
                ("op", J::s(format!("{:?}", op))),
                ("a", self.operand(body, &ab.0, env)),
                ("b", self.operand(body, &ab.1, env)),
            ]),
            Rvalue::UnaryOp(op, a) => J::obj(vec![
                ("k", J::s("unop")),
                ("op", J::s(format!("{:?}", op))),
                ("a", self.operand(body, a, env)),
            ]),
            Rvalue::Discriminant(p) => {
                J::obj(vec![("k", J::s("discr")), ("pl", self.place(body, p))])
            }
            Rvalue::Aggregate(kind, ops) => {
                let mut o = vec![("k", J::s("aggregate"))];
                match &**kind {
                    AggregateKind::Array(t) => {
                        o.push(("agg", J::s("array")));
                        o.push(("of", self.ty(*t)));
                    }
                    AggregateKind::Tuple => o.push(("agg", J::s("tuple"))),
                    AggregateKind::Adt(did, vi, args, _, active) => {
                        let def = self.tcx.adt_def(*did);
                        self.note_adt(def);
                        o.push(("agg", J::s("adt")));
                        o.push(("adt", J::s(self.path(*did))));
                        o.push(("variant", J::Int(vi.index() as i128)));
                        o.push(("vname", J::s(def.variant(*vi).name.to_string())));
                        let names: Vec<J> = def
                            .variant(*vi)
                            .fields
                            .iter()
                            .map(|f| J::s(f.name.to_string()))
                            .collect();
                        o.push(("fields", J::Arr(names)));
                        o.push(("union_field", J::opt(*active, |f| J::Int(f.index() as i128))));
                        let _ = args;
                    }
                    AggregateKind::Closure(did, cargs) => {
                        o.push(("agg", J::s("closure")));
                        o.push(("closure", J::s(self.path(*did))));
                        let ci = Instance::new_raw(*did, cargs);
                        let key = if cargs.has_non_region_param() { None } else { self.maybe_enqueue(ci) };
                        o.push(("key", J::opt(key, J::s)));
                    }
                    AggregateKind::RawPtr(..) => o.push(("agg", J::s("rawptr"))),
                    _ => o.push(("agg", J::s("other"))),
                }
                let mut v = vec![];
                for op in ops.iter() {
                    v.push(self.operand(body, op, env));
                }
                o.push(("ops", J::Arr(v)));
                J::obj(o)
            }
            Rvalue::CopyForDeref(p) => {
                J::obj(vec![("k", J::s("copy_for_deref")), ("pl", self.place(body, p))])
            }
            Rvalue::ThreadLocalRef(d) => {
                J::obj(vec![("k", J::s("thread_local_ref")), ("static", J::s(self.path(*d)))])
            }
            other => J::obj(vec![("k", J::s("other")), ("dbg", J::s(format!("{:?}", other)))]),
        }
    }

    fn callee(&mut self, body: &Body<'tcx>, func: &Operand<'tcx>, env: TypingEnv<'tcx>) -> J {
        if let Operand::Constant(c) = func {
            if let ty::FnDef(def, args) = c.const_.ty().kind() {
                let def = *def;
                let mut o = vec![
                    ("def", J::s(self.path(def))),
                    ("crate", J::s(self.crate_of(def))),
                    ("full", J::s(self.path_args(def, args))),
                ];
                let mut targs = vec![];
                for a in args.iter() {
                    if let GenericArgKind::Type(t) = a.kind() {
                        targs.push(self.ty(t));
                    }
                }
                o.push(("targs", J::Arr(targs)));
                if let Some(tr) = self.tcx.trait_of_assoc(def) {
                    o.push(("trait", J::s(self.path(tr))));
                    o.push(("method", J::s(self.tcx.item_name(def).to_string())));
                }
                let res = match Instance::try_resolve(self.tcx, env, def, args) {
                    Ok(Some(inst)) => self.instance_json(inst),
                    _ => J::Null,
                };
                o.push(("res", res));
                return J::obj(o);
            }
        }
        J::obj(vec![("indirect", self.operand(body, func, env))])
    }

    fn assert_kind(&mut self, body: &Body<'tcx>, msg: &AssertKind<Operand<'tcx>>, env: TypingEnv<'tcx>) -> J {
        match msg {
            AssertKind::BoundsCheck { len, index } => J::obj(vec![
                ("kind", J::s("BoundsCheck")),
                ("len", self.operand(body, len, env)),
                ("index", self.operand(body, index, env)),
            ]),
            AssertKind::Overflow(op, a, b) => J::obj(vec![
                ("kind", J::s("Overflow")),
                ("op", J::s(format!("{:?}", op))),
                ("a", self.operand(body, a, env)),
                ("b", self.operand(body, b, env)),
            ]),
            AssertKind::OverflowNeg(a) => {
                J::obj(vec![("kind", J::s("OverflowNeg")), ("a", self.operand(body, a, env))])
            }
            AssertKind::DivisionByZero(a) => {
                J::obj(vec![("kind", J::s("DivisionByZero")), ("a", self.operand(body, a, env))])
            }
            AssertKind::RemainderByZero(a) => {
                J::obj(vec![("kind", J::s("RemainderByZero")), ("a", self.operand(body, a, env))])
            }
            AssertKind::MisalignedPointerDereference { .. } => {
                J::obj(vec![("kind", J::s("MisalignedPointerDereference"))])
            }
            AssertKind::NullPointerDereference => J::obj(vec![("kind", J::s("NullPointerDereference"))]),
            other => J::obj(vec![("kind", J::s("Other")), ("dbg", J::s(format!("{:?}", other)))]),
        }
    }

    // ---------------------------------------------------------------- bodies

    fn emit_body(&mut self, key: String, def: DefId, body: &Body<'tcx>, env: TypingEnv<'tcx>, poly: bool, mono: bool) {
        let tcx = self.tcx;
        let mut locals = vec![];
        let mut names: HashMap<usize, String> = HashMap::new();
        for vdi in body.var_debug_info.iter() {
            if let mir::VarDebugInfoContents::Place(p) = &vdi.value {
                if p.projection.is_empty() {
                    names.entry(p.local.index()).or_insert_with(|| vdi.name.to_string());
                }
            }
        }
        for (l, decl) in body.local_decls.iter_enumerated() {
            locals.push(J::obj(vec![
                ("ty", self.ty(decl.ty)),
                ("name", J::opt(names.get(&l.index()).cloned(), J::s)),
            ]));
        }
        let mut blocks = vec![];
        for (_bb, data) in body.basic_blocks.iter_enumerated() {
            let mut stmts = vec![];
            for st in data.statements.iter() {
                let sj = match &st.kind {
                    StatementKind::Assign(b) => {
                        let (p, rv) = &**b;
                        Some(J::obj(vec![
                            ("k", J::s("assign")),
                            ("pl", self.place(body, p)),
                            ("rv", self.rvalue(body, rv, env)),
                            ("span", self.span(st.source_info.span)),
                            ("exp", J::Bool(st.source_info.span.from_expansion())),
                        ]))
                    }
                    StatementKind::SetDiscriminant { place, variant_index } => Some(J::obj(vec![
                        ("k", J::s("set_discr")),
                        ("pl", self.place(body, place)),
                        ("variant", J::Int(variant_index.index() as i128)),
                    ])),
                    StatementKind::StorageDead(l) => Some(J::obj(vec![
                        ("k", J::s("storage_dead")),
                        ("l", J::Int(l.index() as i128)),
                    ])),
                    StatementKind::StorageLive(l) => Some(J::obj(vec![
                        ("k", J::s("storage_live")),
                        ("l", J::Int(l.index() as i128)),
                    ])),
                    StatementKind::Intrinsic(i) => Some(J::obj(vec![
                        ("k", J::s("intrinsic")),
                        ("dbg", J::s(format!("{:?}", i))),
                    ])),
                    _ => None,
                };
                if let Some(j) = sj {
                    stmts.push(j);
                }
            }
            let term = data.terminator();
            let tspan = self.span(term.source_info.span);
            let texp = J::Bool(term.source_info.span.from_expansion());
            let unwind_j = |u: &mir::UnwindAction| -> J {
                match u {
                    mir::UnwindAction::Cleanup(b) => J::Int(b.index() as i128),
                    _ => J::Null,
                }
            };
            let mut tj = match &term.kind {
                TerminatorKind::Goto { target } => {
                    vec![("k", J::s("goto")), ("t", J::Int(target.index() as i128))]
                }
                TerminatorKind::SwitchInt { discr, targets } => {
                    let mut ts = vec![];
                    for (v, b) in targets.iter() {
                        ts.push(J::Arr(vec![J::Raw(format!("{}", v)), J::Int(b.index() as i128)]));
                    }
                    vec![
                        ("k", J::s("switch")),
                        ("op", self.operand(body, discr, env)),
                        ("targets", J::Arr(ts)),
                        ("otherwise", J::Int(targets.otherwise().index() as i128)),
                    ]
                }
                TerminatorKind::Return => vec![("k", J::s("return"))],
                TerminatorKind::Unreachable => vec![("k", J::s("unreachable"))],
                TerminatorKind::UnwindResume => vec![("k", J::s("resume"))],
                TerminatorKind::UnwindTerminate(_) => vec![("k", J::s("terminate"))],
                TerminatorKind::Drop { place, target, unwind, .. } => vec![
                    ("k", J::s("drop")),
                    ("pl", self.place(body, place)),
                    ("t", J::Int(target.index() as i128)),
                    ("unwind", unwind_j(unwind)),
                ],
                TerminatorKind::Call { func, args, destination, target, unwind, fn_span, .. } => {
                    let mut av = vec![];
                    for a in args.iter() {
                        av.push(self.operand(body, &a.node, env));
                    }
                    vec![
                        ("k", J::s("call")),
                        ("func", self.callee(body, func, env)),
                        ("args", J::Arr(av)),
                        ("dest", self.place(body, destination)),
                        ("t", J::opt(*target, |b| J::Int(b.index() as i128))),
                        ("unwind", unwind_j(unwind)),
                        ("fn_span", self.span(*fn_span)),
                    ]
                }
                TerminatorKind::TailCall { func, args, .. } => {
                    let mut av = vec![];
                    for a in args.iter() {
                        av.push(self.operand(body, &a.node, env));
                    }
                    vec![
                        ("k", J::s("tailcall")),
                        ("func", self.callee(body, func, env)),
                        ("args", J::Arr(av)),
                    ]
                }
                TerminatorKind::Assert { cond, expected, msg, target, unwind } => vec![
                    ("k", J::s("assert")),
                    ("cond", self.operand(body, cond, env)),
                    ("expected", J::Bool(*expected)),
                    ("msg", self.assert_kind(body, msg, env)),
                    ("t", J::Int(target.index() as i128)),
                    ("unwind", unwind_j(unwind)),
                ],
                TerminatorKind::FalseEdge { real_target, .. } => {
                    vec![("k", J::s("goto")), ("t", J::Int(real_target.index() as i128))]
                }
                TerminatorKind::FalseUnwind { real_target, .. } => {
                    vec![("k", J::s("goto")), ("t", J::Int(real_target.index() as i128))]
                }
                other => vec![("k", J::s("other")), ("dbg", J::s(format!("{:?}", other)))],
            };
            tj.push(("span", tspan));
            tj.push(("exp", texp));
            blocks.push(J::obj(vec![
                ("stmts", J::Arr(stmts)),
                ("term", J::obj(tj)),
                ("cleanup", J::Bool(data.is_cleanup)),
            ]));
        }
        let kind = match tcx.def_kind(def) {
            DefKind::Closure => "closure",
            DefKind::AssocFn => "assoc_fn",
            DefKind::Fn => "fn",
            _ => "other",
        };
        let root = tcx.typeck_root_def_id(def);
        let j = J::obj(vec![
            ("key", J::s(key.clone())),
            ("def", J::s(self.path(def))),
            ("crate", J::s(self.crate_of(def))),
            ("kind", J::s(kind)),
            ("root", J::s(self.path(root))),
            ("poly", J::Bool(poly)),
            ("mono", J::Bool(mono)),
            ("span", self.span(body.span)),
            ("arg_count", J::Int(body.arg_count as i128)),
            ("locals", J::Arr(locals)),
            ("blocks", J::Arr(blocks)),
        ]);
        self.bodies.push((key, j));
    }

    fn local_adt_types(&self) -> Vec<Ty<'tcx>> {
        let tcx = self.tcx;
        let mut v = vec![];
        for id in tcx.hir_crate_items(()).definitions() {
            let did = id.to_def_id();
            if matches!(tcx.def_kind(did), DefKind::Struct | DefKind::Enum) {
                let g = tcx.generics_of(did);
                if g.requires_monomorphization(tcx) {
                    continue;
                }
                let args = ty::GenericArgs::for_item(tcx, did, |p, _| match p.kind {
                    ty::GenericParamDefKind::Lifetime => tcx.lifetimes.re_erased.into(),
                    _ => unreachable!(),
                });
                v.push(Ty::new_adt(tcx, tcx.adt_def(did), args));
            }
        }
        v
    }

    fn force_instances(&mut self) {
        let tcx = self.tcx;
        let cands = self.local_adt_types();
        let env = TypingEnv::fully_monomorphized();
        // (1) methods of local traits with a self type drawn from the local ADTs (blanket impls)
        let mut trait_methods = vec![];
        for id in tcx.hir_crate_items(()).definitions() {
            let did = id.to_def_id();
            if tcx.def_kind(did) == DefKind::Trait {
                for it in tcx.associated_items(did).in_definition_order() {
                    if matches!(it.kind, ty::AssocKind::Fn { .. }) {
                        trait_methods.push((did, it.def_id));
                    }
                }
            }
        }
        for (tr, m) in trait_methods {
            let g = tcx.generics_of(m);
            // only `Self` (+ lifetimes) may be generic
            let tg = tcx.generics_of(tr);
            let mut n_ty = 0;
            for p in tg.own_params.iter().chain(g.own_params.iter()) {
                if !matches!(p.kind, ty::GenericParamDefKind::Lifetime) {
                    n_ty += 1;
                }
            }
            for &t in &cands {
                let args = if n_ty == 1 {
                    ty::GenericArgs::for_item(tcx, m, |p, _| match p.kind {
                        ty::GenericParamDefKind::Lifetime => tcx.lifetimes.re_erased.into(),
                        _ => t.into(),
                    })
                } else if n_ty == 2 && self.path(tr).ends_with("AttributeFromRaw") {
                    // AttributeFromRaw<E>: E = StunParseError (the only error type used in-tree)
                    let e = cands.iter().copied().find(|c| self.ty_str(*c).ends_with("StunParseError"));
                    let Some(e) = e else { continue };
                    ty::GenericArgs::for_item(tcx, m, |p, _| match p.kind {
                        ty::GenericParamDefKind::Lifetime => tcx.lifetimes.re_erased.into(),
                        _ => {
                            if p.index == 0 {
                                t.into()
                            } else {
                                e.into()
                            }
                        }
                    })
                } else {
                    continue;
                };
                if let Ok(Some(inst)) = Instance::try_resolve(tcx, env, m, args) {
                    if let InstanceKind::Item(d) = inst.def {
                        if tcx.is_mir_available(d) && !inst.args.has_non_region_param() {
                            self.maybe_enqueue(inst);
                        }
                    }
                }
            }
        }
        // (2) local generic fns with exactly one type parameter
        let owners: Vec<LocalDefId> = tcx.hir_body_owners().collect();
        for ld in owners {
            let did = ld.to_def_id();
            if !matches!(tcx.def_kind(did), DefKind::Fn | DefKind::AssocFn) {
                continue;
            }
            if tcx.trait_of_assoc(did).is_some() && tcx.impl_of_assoc(did).is_none() {
                continue; // provided trait methods: handled by (1)
            }
            let g = tcx.generics_of(did);
            if !g.requires_monomorphization(tcx) {
                continue;
            }
            let mut n_ty = 0;
            let mut gg = Some(g);
            while let Some(x) = gg {
                for p in x.own_params.iter() {
                    if !matches!(p.kind, ty::GenericParamDefKind::Lifetime) {
                        n_ty += 1;
                    }
                }
                gg = x.parent.map(|p| tcx.generics_of(p));
            }
            if n_ty != 1 {
                continue;
            }
            if let Some(imp) = tcx.impl_of_assoc(did) {
                if tcx.impl_opt_trait_ref(imp).is_some() {
                    continue; // blanket trait impl methods: handled by (1)
                }
            }
            for &t in &cands {
                let args = ty::GenericArgs::for_item(tcx, did, |p, _| match p.kind {
                    ty::GenericParamDefKind::Lifetime => tcx.lifetimes.re_erased.into(),
                    _ => t.into(),
                });
                if tcx.instantiate_and_check_impossible_predicates((did, args)) {
                    continue;
                }
                if let Ok(Some(inst)) = Instance::try_resolve(tcx, env, did, args) {
                    self.maybe_enqueue(inst);
                }
            }
        }
    }

    fn fn_table(&mut self) -> J {
        let tcx = self.tcx;
        let ev = tcx.effective_visibilities(());
        let mut out = vec![];
        let owners: Vec<LocalDefId> = tcx.hir_body_owners().collect();
        for ld in owners {
            let did = ld.to_def_id();
            let dk = tcx.def_kind(did);
            if !matches!(dk, DefKind::Fn | DefKind::AssocFn | DefKind::Closure) {
                continue;
            }
            let mut o = vec![
                ("kind", J::s(format!("{:?}", dk))),
                ("span", self.span(tcx.def_span(did))),
                ("generic", J::Bool(self.needs_mono(did))),
            ];
            if matches!(dk, DefKind::Fn | DefKind::AssocFn) {
                o.push(("pub", J::Bool(tcx.visibility(did).is_public())));
                o.push(("exported", J::Bool(ev.is_exported(ld))));
                o.push(("reachable", J::Bool(ev.is_reachable(ld))));
                o.push(("name", J::s(tcx.item_name(did).to_string())));
            }
            if dk == DefKind::AssocFn {
                if let Some(imp) = tcx.impl_of_assoc(did) {
                    let self_ty = tcx.type_of(imp).instantiate_identity().skip_normalization();
                    o.push(("impl_self", self.ty(self_ty)));
                    o.push(("impl_self_s", J::s(self.ty_str(self_ty))));
                    if let Some(tr) = tcx.impl_opt_trait_ref(imp) {
                        let tr = tr.instantiate_identity().skip_normalization();
                        o.push(("impl_trait", J::s(self.path(tr.def_id))));
                        o.push(("derived", J::Bool(tcx.is_automatically_derived(imp))));
                    }
                } else if let Some(tr) = tcx.trait_of_assoc(did) {
                    o.push(("in_trait", J::s(self.path(tr))));
                }
            }
            out.push((self.path(did), J::obj(o)));
        }
        J::Obj(out)
    }

    fn impl_table(&mut self) -> J {
        let tcx = self.tcx;
        let mut out = vec![];
        let mut impls: Vec<(DefId, LocalDefId)> = vec![];
        for (tr, v) in tcx.all_local_trait_impls(()).iter() {
            for i in v {
                impls.push((*tr, *i));
            }
        }
        impls.sort_by_key(|(_, i)| i.local_def_index.as_u32());
        for (tr, imp) in impls {
            let impd = imp.to_def_id();
            let self_ty = tcx.type_of(impd).instantiate_identity().skip_normalization();
            let mut items = vec![];
            let mut consts = vec![];
            for it in tcx.associated_items(impd).in_definition_order() {
                match it.kind {
                    ty::AssocKind::Fn { .. } => {
                        items.push((it.name().to_string(), J::s(self.path(it.def_id))));
                    }
                    ty::AssocKind::Const { .. } => {
                        let v = match tcx.const_eval_poly(it.def_id) {
                            Ok(cv) => {
                                let cty = tcx.type_of(it.def_id).instantiate_identity().skip_normalization();
                                self.const_val(cv, cty, TypingEnv::post_analysis(tcx, impd))
                            }
                            Err(_) => J::Null,
                        };
                        consts.push((it.name().to_string(), v));
                    }
                    _ => {}
                }
            }
            let trait_ref = tcx.impl_opt_trait_ref(impd).map(|t| t.instantiate_identity().skip_normalization());
            let trait_full = trait_ref.map(|t| with_no_trimmed_paths!(with_resolve_crate_name!(format!("{}", t.print_only_trait_path()))));
            out.push(J::obj(vec![
                ("trait", J::s(self.path(tr))),
                ("trait_full", J::opt(trait_full, J::s)),
                ("self", self.ty(self_ty)),
                ("self_s", J::s(self.ty_str(self_ty))),
                ("blanket", J::Bool(matches!(self_ty.kind(), ty::Param(_)))),
                ("derived", J::Bool(tcx.is_automatically_derived(impd))),
                ("span", self.span(tcx.def_span(impd))),
                ("items", J::Obj(items)),
                ("consts", J::Obj(consts)),
            ]));
        }
        J::Arr(out)
    }

    fn statics_table(&mut self) -> J {
        let tcx = self.tcx;
        let mut out = vec![];
        for id in tcx.hir_crate_items(()).definitions() {
            let did = id.to_def_id();
            if let DefKind::Static { mutability, nested, .. } = tcx.def_kind(did) {
                if nested {
                    continue;
                }
                let t = tcx.type_of(did).instantiate_identity().skip_normalization();
                out.push((
                    self.path(did),
                    J::obj(vec![
                        ("mut", J::Bool(mutability.is_mut())),
                        ("ty", self.ty(t)),
                        ("ty_s", J::s(self.ty_str(t))),
                        ("span", self.span(tcx.def_span(did))),
                    ]),
                ));
            }
        }
        J::Obj(out)
    }

    fn consts_table(&mut self) -> J {
        // free and inherent associated consts of scalar / small aggregate type
        let tcx = self.tcx;
        let mut out = vec![];
        for id in tcx.hir_crate_items(()).definitions() {
            let did = id.to_def_id();
            let dk = tcx.def_kind(did);
            let is_const = matches!(dk, DefKind::Const { .. } | DefKind::AssocConst { .. });
            if !is_const {
                continue;
            }
            if tcx.generics_of(did).requires_monomorphization(tcx) {
                continue;
            }
            if dk.is_assoc() && tcx.trait_of_assoc(did).is_some() && tcx.impl_of_assoc(did).is_none() {
                continue; // trait-level declaration without value
            }
            let cty = tcx.type_of(did).instantiate_identity().skip_normalization();
            if let Ok(cv) = tcx.const_eval_poly(did) {
                let v = self.const_val(cv, cty, TypingEnv::post_analysis(tcx, did));
                out.push((
                    self.path(did),
                    J::obj(vec![("ty_s", J::s(self.ty_str(cty))), ("v", v)]),
                ));
            }
        }
        J::Obj(out)
    }

    fn unsafe_table(&mut self) -> J {
        use rustc_hir::intravisit::{self, Visitor};
        struct V<'tcx> {
            tcx: TyCtxt<'tcx>,
            found: Vec<(String, bool)>,
        }
        impl<'tcx> Visitor<'tcx> for V<'tcx> {
            type NestedFilter = rustc_middle::hir::nested_filter::All;
            fn maybe_tcx(&mut self) -> Self::MaybeTyCtxt {
                self.tcx
            }
            fn visit_block(&mut self, b: &'tcx rustc_hir::Block<'tcx>) {
                if let rustc_hir::BlockCheckMode::UnsafeBlock(_) = b.rules {
                    self.found.push((format!("{:?}", b.span), b.span.from_expansion()));
                }
                intravisit::walk_block(self, b);
            }
        }
        let mut v = V { tcx: self.tcx, found: vec![] };
        self.tcx.hir_visit_all_item_likes_in_crate(&mut v);
        J::Arr(
            v.found
                .into_iter()
                .map(|(s, e)| J::obj(vec![("span", J::s(s)), ("exp", J::Bool(e))]))
                .collect(),
        )
    }

    fn run(&mut self) -> J {
        let tcx = self.tcx;
        let owners: Vec<LocalDefId> = tcx.hir_body_owners().collect();
        for ld in owners {
            let did = ld.to_def_id();
            if !matches!(tcx.def_kind(did), DefKind::Fn | DefKind::AssocFn | DefKind::Closure) {
                continue;
            }
            let key = self.path(did);
            let body = tcx.optimized_mir(did);
            let env = TypingEnv::post_analysis(tcx, did);
            let poly = self.needs_mono(did);
            self.emitted.insert(key.clone());
            self.emit_body(key, did, body, env, poly, false);
        }
        self.force_instances();
        while let Some((key, inst)) = self.queue.pop_front() {
            let def = inst.def_id();
            let body = tcx.instance_mir(inst.def).clone();
            let env = TypingEnv::fully_monomorphized();
            let body = inst.instantiate_mir_and_normalize_erasing_regions(tcx, env, EarlyBinder::bind(body));
            self.emit_body(key, def, &body, env, false, true);
        }
        let fns = self.fn_table();
        let impls = self.impl_table();
        let statics = self.statics_table();
        let consts = self.consts_table();
        let unsafe_blocks = self.unsafe_table();
        let nonce = std::env::var("STUNLINT_NONCE").unwrap_or_default();
        J::obj(vec![
            ("crate", J::s(self.krate.clone())),
            ("nonce", J::s(nonce)),
            ("rustc", J::s(option_env!("CFG_VERSION").unwrap_or("nightly").to_string())),
            ("overflow_checks", J::Bool(tcx.sess.overflow_checks())),
            ("debug_assertions", J::Bool(tcx.sess.opts.debug_assertions)),
            ("types", J::Arr(std::mem::take(&mut self.types))),
            ("adts", J::Obj(std::mem::take(&mut self.adts))),
            ("fns", fns),
            ("impls", impls),
            ("statics", statics),
            ("consts", consts),
            ("unsafe_blocks", unsafe_blocks),
            ("bodies", J::Obj(std::mem::take(&mut self.bodies))),
        ])
    }
}

