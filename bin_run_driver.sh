#!/bin/bash
# dev helper: run the driver over /repo, facts to $1
O=${1:-/tmp/facts}; mkdir -p $O; T=$(mktemp -d)
cd ${REPO:-/repo} && LD_LIBRARY_PATH=$(rustc +nightly --print sysroot)/lib RUSTFLAGS="-Zmir-opt-level=0 -Zalways-encode-mir -Awarnings" RUSTC_WORKSPACE_WRAPPER=/verif/stunlint/target/debug/stunlint STUNLINT_OUT=$O STUNLINT_NONCE=dev CARGO_TARGET_DIR=$T cargo +nightly check --offline -p stun-types -p stun-proto 2>&1 | grep -vE "^\s+(Compiling|Checking)" | tail -${TAIL:-15}
rm -rf $T; ls -la $O
