//! Positive controls: deliberate violations the stunlint rules must report on every run (and a few
//! look-alikes they must NOT report). Never linked into anything; analysed by the same driver.
#![allow(dead_code, clippy::all)]
use std::collections::{BTreeMap, HashMap, HashSet};
use std::time::{Duration, Instant};

pub mod effects {
    use super::*;
    pub static mut SCRATCH: u32 = 0;
    pub static TABLE: std::sync::Mutex<Vec<u8>> = std::sync::Mutex::new(Vec::new());

    /// forbidden: wall clock fallback
    pub fn clock_fallback(now: Option<Instant>) -> Instant {
        now.unwrap_or_else(Instant::now)
    }
    /// forbidden: environment
    pub fn env_read() -> bool {
        std::env::var("STUN_DEBUG").is_ok()
    }
    /// forbidden: thread identity
    pub fn thread_id() -> String {
        format!("{:?}", std::thread::current().id())
    }
    /// static other than the allow-listed counter
    pub fn shared_table() -> usize {
        TABLE.lock().map(|t| t.len()).unwrap_or(0)
    }
    /// allowed: Instant arithmetic and comparison on caller-supplied instants
    pub fn instant_math_ok(now: Instant, last: Instant) -> bool {
        last + Duration::from_millis(500) > now
    }
}

pub mod order {
    use super::*;
    /// order-sensitive: first element in hash order
    pub fn hash_first(m: &HashMap<u32, u32>) -> Option<u32> {
        for v in m.values() {
            if *v > 3 {
                return Some(*v);
            }
        }
        None
    }
    /// order-sensitive: last one wins
    pub fn hash_last_wins(m: &HashSet<u32>) -> u32 {
        let mut last = 0;
        for v in m.iter() {
            last = *v;
        }
        last
    }
    /// order-sensitive: snapshot used unsorted
    pub fn hash_snapshot_unsorted(m: &HashMap<u32, u32>) -> Option<u32> {
        let ids: Vec<u32> = m.keys().copied().collect();
        ids.first().copied()
    }
    /// fine: minimum selection over a full traversal
    pub fn hash_min_ok(m: &HashMap<u32, Instant>, cap: Instant) -> Instant {
        let mut lowest = cap;
        for v in m.values() {
            if *v < lowest {
                lowest = *v;
            }
        }
        lowest
    }
    /// fine: snapshot sorted by a total key before use
    pub fn hash_sorted_ok(m: &HashMap<u32, u32>) -> Option<u32> {
        let mut ids: Vec<u32> = m.keys().copied().collect();
        ids.sort_unstable();
        ids.first().copied()
    }
    /// fine: ordered map, early exit allowed
    pub fn btree_first_ok(m: &BTreeMap<u32, u32>) -> Option<u32> {
        for v in m.values() {
            if *v > 3 {
                return Some(*v);
            }
        }
        None
    }
}
